#!/usr/bin/env python3
"""Writes /verif/MANIFEST.json from the table below (one entry per property that has a rule module
which is silent on the repaired tree and fires on its mutants; everything else is listed under
not_applicable with the reason)."""
import json
import os

HERE = os.path.dirname(os.path.dirname(os.path.abspath(__file__)))

CLAIMED = {
    'C18': dict(
        category='other',
        text='Resolved C++ program (cplusplus/xraylib++.h plus a generated unit that instantiates every wrapper template with '
             'exactly the parameter types of the C function of the same name - 118 instantiations, must compile): each of the 138 '
             'wrapper bodies is walked symbolically and must make one call to the C function it is named after, forward its '
             'parameters one-to-one and in order (std::string as c_str(), Struct methods pass their own C object, nullptr selects '
             'the built-in crystal array), pass the address of a local xrl_error* that is nullptr, call _process_error(error) as '
             'the very next step, and return the C result unchanged / as std::complex(re, im) / as std::string followed by '
             'xrlFree / as the wrapper class followed by the C destructor of that struct / as a vector of all n strings each '
             'released; _process_error returns iff the error is null, maps MEMORY -> bad_alloc, INVALID_ARGUMENT -> '
             'invalid_argument(message), every other code -> runtime_error(message) and frees the error after copying code and '
             'message; the 5 POD -> class conversions initialise every member from the same-named C field and every array from '
             'its own count; Crystal::Struct owns a C object in each of its 3 constructors, deep-copies on copy, cannot be '
             'assigned, frees in the destructor; all members are values (objects outlive the C originals); every error-reporting '
             'C API function has a wrapper (3 documented exceptions).',
        design_ref='DESIGN.md section 2, C18',
        note='Decided: the structural necessary and sufficient conditions on each wrapper body. Not decided: overload resolution '
             'for user argument types other than the C ones, standard-library behaviour, exceptions thrown by the standard '
             'library between obtaining and releasing a C object. Fixed on this tree: F4 (_process_error leaked the error).',
        technique='symbolic walk of resolved wrapper bodies incl. template instantiations; compile witness; ownership typestate',
    ),
    'C19': dict(
        category='other',
        text='The parsed Java sources (javac tree API, tools/JavaFacts.java) and the resolved C sources are compared pair by pair for '
             'the 141 function/method pairs of the same name that are translations of each other (private helpers, *_catch adaptors, '
             'strategy objects with bound method references, the Crystal_Struct methods behind the static wrappers, C static helpers '
             'and constant function tables resolved first): equal multisets of named physics constants (a name may match its value; '
             'derived constants expanded), of xraylib and libm callees, of numeric literals other than 0 and 1, of record fields '
             '(multiset in the record classes, set elsewhere), equal sets of data tables (tables with identical contents in the '
             'shipped data count as one), equal tests on looked-up results (v <= 0 against v == 0), and for the public pairs equal '
             'sets of transitive range guards on the parameters (conditions under which the function or a callee whose failure '
             'propagates reports an error, mapped through call sites; flat Java indices and the 1-based C spline tables '
             'canonicalised). The byte layout of the table file is decided exactly: the 105 (type, count, table, loops, conditions) '
             'items written by java/pr_data_java.c (print helpers inlined, macros expanded, counts folded) equal, in order, the items '
             'read by Xraylib.XRayInit with its read helpers and the record constructors inlined. The derivations copied into the '
             'data writer (Auger yields/rates) combine the same terms as the originals in src/pr_data.c.',
        design_ref='DESIGN.md section 2, C19',
        note='Necessary conditions only: numerical equality to round-off and the exact coincidence of error conditions on every '
             'input are run-time facts and are not decided. 15 pairs are independent implementations (formula parser, catalogue '
             'containers) and are not compared; 20 translation idioms are frozen with reasons in rules/c19.py. Fixed on this tree: '
             'F17 (PL3_full_cascade_kissel), F24 (AugerYield sign test).',
        technique='cross-checking sibling implementations: fingerprints over resolved trees, transitive guard sets, stream-schema equality',
    ),
    'C20': dict(
        category='proof',
        text='Exhaustive static comparison: every constant (~9 600 binding/name pairs) and every foreign prototype '
             '(Fortran BIND(C) interfaces, Pascal externals, Cython cdef extern, both generator tables) published by a '
             'binding interface file is compared with the C headers as resolved by clang; completeness of each macro '
             'family per binding; SWIG struct typemaps read every field; every XRL_EXTERN prototype has an exported '
             'definition of the same signature; version strings of every file listed in .bumpversion.cfg. The space '
             'is finite and enumerated completely, each obligation decided exactly.',
        design_ref='DESIGN.md section 2, C20',
        note='Trusted: clang 14 front end (macro table, canonical types, visibility attributes), the per-language '
             'lexers (each must re-find a hand-confirmed minimum number of declarations or the check exits 2). '
             'Not decided: that the foreign compilers implement the declared ABI; the Java binding has no C '
             'prototypes (it is a re-implementation, see C19).',
        technique='custom cross-language declaration checker over clang-resolved prototypes and macro table',
    ),
    'C15': dict(
        category='proof',
        text='Exhaustive static evaluation of the catalogue initialisers (180 NIST compounds, 10 radionuclides, 107 '
             'elements; 38 crystals from data/Crystals.dat and, thorough tier, from the generated unit), of every index '
             'macro in the public headers against the entry it names (name-to-macro rule reproduced and checked for all '
             '180), and of the bodies of the 11 lookup/list/free functions: same array and same count on every access '
             'path, index guard, deep copy of every field with allocation and memcpy sized by the length field that the '
             'catalogue data itself associates with the array, destructor releases every pointer field once.',
        design_ref='DESIGN.md section 2, C15',
        note='Trusted: clang 14 initialiser trees and constant evaluation; independent readers of atomicweight.dat, '
             'fluor_lines.dat, Crystals.dat. Mass-fraction sums use exact decimals with the stated rounding tolerance. '
             'Not decided: behaviour of user code that mutates copies (ownership shape is decided, not executions).',
        technique='initialiser evaluation + structural rules over the resolved AST of the lookup functions',
    ),
    'C10': dict(
        category='proof',
        text='Every group branch of LineEnergy, LineEnergyComposed and RadRate is enumerated as an abstract path (loops over '
             'constant bounds and constant tables unrolled exactly); the value returned on each path is compared, as an '
             'exact rational function over table cells and calls, with the average the property states (rate-weighted mean, '
             'plain-mean fallback, error; K-alpha sum, K-beta complement, L-alpha sum, KO/KP first member; L-beta '
             'cross-section-weighted mean with each member paired to its own shell). Member sets are derived from the '
             'macro names of the current headers; the three L-beta member lists are cross-checked as siblings.',
        design_ref='DESIGN.md section 2, C10',
        note='Trusted: clang front end, E1 path enumeration, E2 normal forms, E3 name oracle, reader of radrate.dat for '
             'don\'t-care members. Not decided: that a weighted mean lies between member energies when a member has a rate '
             'but no tabulated energy (data-dependent numeric fact), rounding.',
        technique='path-sensitive abstract interpretation with exact rational normal forms vs name-derived oracle',
    ),
    'C11': dict(
        category='proof',
        text='AugerYield_prdata, AugerYield2_prdata and AugerRate_prdata (src/pr_data.c and their copies in '
             'java/pr_data_java.c) are enumerated path by path; every one of the 996 Auger macros is assigned to the '
             'abstract path that serves it (switch partition + range tests) and the returned normal form is compared with '
             'the stated derivation instantiated from the macro names (CK transitions leaving each shell; the 351 '
             'Coster-Kronig-type macros; normalising shell = initial shell of the macro). Fill loops and public accessors '
             'checked for range/table/positivity. Thorough tier (translation validation): all 120 600 cells of the two '
             'generated tables are re-derived from auger_rates.dat, fluor_yield.dat, coskron.dat.',
        design_ref='DESIGN.md section 2, C11',
        note='Trusted: clang front end, E1/E2/E3 engines, data readers; thorough tier compares %.10E literals with a '
             'double-precision re-derivation to 5e-10 relative.',
        technique='path-sensitive abstract interpretation + name-derived oracle; generated-table validation against data files',
    ),
    'C07': dict(
        category='other',
        text='Structural induction over the formula: the bodies of the symbol loop and of the group loop of '
             'CompoundParserSimple are analysed as fragments (locals unconstrained on entry); on each of the ~125 abstract '
             'paths that complete an iteration the symbol was found in the sorted element table (bsearch over all MENDEL_MAX '
             'entries), the count is 1 or strtod of the complete digit/dot run after the symbol / closing bracket (scan and '
             'substring offsets agree, converted to its end, non-zero), a group is a successful recursive call on exactly the '
             'text between its brackets into a fresh empty list, and the merge is one of first / new (bsearch over all '
             'entries == NULL, vector grown by one, appended, re-sorted with the same comparator) / existing (count added) - '
             'for a group for every entry j in [0, n) with count_j x multiplier, or adoption of the whole list with every '
             'count scaled; comparators ascend by Z; CompoundParser: nElements, vector sizes, per-iteration snapshots give '
             'nAtomsAll = sum n_i, molarMass = sum A_i n_i (A_i non-zero), Elements[i], nAtoms[i], massFractions[i] = '
             'A_i n_i / molarMass with molarMass > 0; elements without weight end in NULL with the error; locale '
             'save-set-restore bracket encloses the only strtod user; add_compound_data: each operand travels with its own '
             'weight on both branches, result starts as the longer list, elements of the shorter one appended iff absent, '
             'sorted with compareInt, fractions start at 0 and accumulate f_j x w of the same operand under element equality.',
        design_ref='DESIGN.md section 2, C07',
        note='Not decided: the accepted language of the character scanner (which malformed strings are rejected) and '
             'floating-point rounding. Invariance under reordering / group expansion follows from the merge rules (addition of '
             'counts is commutative; a group contributes count x multiplier) and is not separately decided. Fixed on this '
             'tree: locale restore (F6), elements without atomic weight (F16).',
        technique='path-sensitive abstract interpretation of statement fragments with loop snapshots; sibling-branch agreement',
    ),
    'C08': dict(
        category='other',
        text='Static term-by-term comparison of the cascade implementation with the model stated in the property: the 32 '
             'P<shell>_<kind> vacancy functions on every subset of open inner shells (1 600+ abstract paths, exact normal '
             'forms), the 46 hand-expanded Auger-sum branches (~2 000 terms) against the multiset of Auger macros leaving a '
             'hole in the target shell with hole multiplicity, shell dispatch of the four variants (inner vacancies computed '
             'by the same variant, passed in shell order), the line->shell mapping table against the macro ranges, the four '
             'line bodies, delegation of the un-suffixed functions, and the build-time filling of both constant tables. '
             'Exhaustive over the enumerated terms; it is a necessary-and-structural check, not a numerical one.',
        design_ref='DESIGN.md section 2, C08',
        note='Trusted: clang front end, E1/E2/E3 engines, radrate.dat reader. Coster-Kronig-type Auger macros are '
             'don\'t-cares inside sums. Numeric orderings and the interpolation of the Kissel partial cross sections are not '
             'decided here (C02). Known findings: PM1<-K Auger sum omits 22 terms (F15); M-M lines outside line_mappings (F22).',
        technique='path-sensitive abstract interpretation + exact polynomial normal forms vs name-derived multisets',
    ),
    'C05': dict(
        category='other',
        text='Identity shapes decided on the abstract paths of all ~40 aggregate / unit-variant entry points (twins '
             'discovered by name): barn twin = cm2/g twin(same arguments in order) x A/N_A with both factors tested before '
             'use and the error slot forwarded; CS_Total / CS_Total_Kissel = sum of exactly their three parts, each part '
             'tested (no partial sum on any path); CSb_Photo_Total adds partial x occupancy over all Kissel shells under an '
             'occupancy guard; DCS[P]_Rayl / DCS[P]_Compt = N_A/A x F^2 (S) x Thomson (KN) at q(E, theta). Exact rational '
             'normal forms; a swapped argument, dropped factor, * vs / or an untested part changes one obligation.',
        design_ref='DESIGN.md section 2, C05',
        note='Trusted: clang front end, E1 path enumeration, E2 normal forms. Not decided: numerical agreement to a '
             'tolerance (follows from the shapes up to rounding).',
        technique='path-sensitive abstract interpretation with exact rational normal forms; sibling (twin) agreement',
    ),
    'C06': dict(
        category='other',
        text='All 21 _CP functions (post-preprocessing AST) and the three refractive-index entry points are enumerated path '
             'by path; a snapshot of one symbolic loop iteration gives the accumulation step, which must equal, as an exact '
             'normal form, massFractions[i] x elemental(Elements[i], the wrapper\'s own scalar parameters in order, error) '
             'with both factors from the record of the same constructor call and the same index, on both the formula and the '
             'NIST branch; zero term => result 0; formula first, NIST second, UNKNOWN_COMPOUND otherwise; prototypes = '
             'definitions. Refractive index: real/imaginary step and closing formulas, the complex entry point agrees with '
             '_Re/_Im including the literal, density fallback only for NIST and only when density <= 0, E>0 and density>0 '
             'established before the sums, elemental failure => 0.',
        design_ref='DESIGN.md section 2, C06',
        note='Trusted: clang front end, E1 (loops over a symbolic element count are analysed through one symbolic '
             'iteration), E2. Assumes a resolved compound has >= 1 element (C15 for NIST; parser exit). Agreement with the '
             'parser\'s composition is C07. The physical value of the constants KD and 9.8663479e-9 is not decided.',
        technique='path-sensitive abstract interpretation with loop-iteration snapshots and exact normal forms',
    ),
    'C01': dict(
        category='proof',
        text='(a) exhaustive name<->macro<->slot agreement of ShellName/LineName/TransName/AugerName/AugerNameTotal with '
             'every macro of the four header families (1 431 obligations) and their extents; (b) parser wiring of the 11 '
             'scalar tables in xrayfiles.c (file, name table, bound, eV->keV step, non-positive default) and printer wiring / '
             '%.10E precision in pr_data.c; (c) for the 11 scalar accessors the single value path returns exactly one load '
             'T[Z][g(macro)] of the frozen table, the interval facts on that path equal [1,ZMAX] x the extent of the macro '
             'range, the cell is > 0, and every other path reports an error and returns 0. Thorough tier '
             '(translation_validation): all ~122 000 generated cells of 9 tables are string-equal to %.10E of the '
             'independently parsed data record (or the default), and no record is dropped.',
        design_ref='DESIGN.md section 2, C01',
        note='Trusted: clang front end, E1 interval facts, E3 names, Python float formatting = glibc printf (both '
             'correctly rounded). The C compiler\'s parsing of the generated 11-digit literals is trusted. Grouped line '
             'macros are C10; Auger accessors C11. A later record for the same (Z, name) overrides an earlier one by design. '
             'Both data configurations: no rule depends on the Kissel table being empty (ElectronConfig is checked for '
             'shape; Kissel cells are covered by C02).',
        technique='exhaustive table/macro agreement + interval abstract interpretation of accessor paths; thorough: generated-table validation against data files',
    ),
    'C03': dict(
        category='other',
        text='Error-slot typestate (empty / set once / possibly set) on every abstract path of all ~165 functions of libxrl that '
             'take an error slot (6 000+ path obligations): sentinel returns have exactly one stored error (O1), a stored error '
             'implies the sentinel (O2), no second store - direct, delegated or propagated (O3), structural rules for the '
             'three setters/propagate/clear (O3b), untested delegates discharged by coverage sets computed from data/*.dat '
             '(O4), the error parameter is only forwarded (O5), and log/asin/acos/division arguments are inside their domain '
             'on every path by interval facts, data facts or a named reasoned exception (O6). The recursive formula scanner, '
             'whose path space exceeds the budget, is covered by a structural exit-block rule.',
        design_ref='DESIGN.md section 2, C03',
        note='Sound-by-construction static analysis, not machine-checked. Assumptions A1-A4 (compound has >= 1 element, '
             'mass fractions > 0, f\'/f\'\' not exactly 0, untested allocations succeed). Delegated calls are resolved through '
             'the callee discipline this same check establishes (coinductive). Not decided: overflow/underflow of finite '
             'arithmetic; meaningfulness of message texts; geometry of caller-supplied unit cells (named, not armed).',
        technique='typestate + interval abstract interpretation over all paths; who-may-touch rule; data-backed coverage facts',
    ),
    'C04': dict(
        category='other',
        text='Memory safety decided on every abstract path of the ~200 libxrl functions: (a) 177 subscripts on fixed-extent '
             'objects proved inside the extent from interval facts, success constraints of delegated calls (computed '
             'transitively), loop-carried universally quantified facts, and data facts (e.g. max NShells <= SHELLNUM_C); '
             '(c) allocation/release typestate over 160+ (allocation, exit) pairs with constructors/destructors discovered '
             'from the code, field ownership, double-release and use-after-release; ownership sinks consume their argument; '
             'a flow-sensitive may-leak analysis covers the two functions beyond the path budget; (d) NULL-checked parameter '
             'families; (e) scanf %s widths; (f) memcpy size = allocation size.',
        design_ref='DESIGN.md section 2, C04',
        note='Sound-by-construction static analysis, not machine-checked. A4: untested allocations are assumed to succeed. '
             'Accesses through the spline pointer tables are bounded by the family invariants decided in C02. Not decided: '
             'undefined behaviour in general (signed overflow, ctype on negative char), the one-before-begin pointer of the '
             '1-based spline idiom (accepted idiom), call *sequences* beyond what per-call ownership implies (crystal arrays: '
             'C14). Known findings: F8 (EdgeEnergy_arr[Z][shell] for Q shells), F12 (scanner error exits leak scratch memory).',
        technique='interval abstract interpretation for bounds + resource typestate over all paths + may-leak dataflow',
    ),
    'C02': dict(
        category='other',
        text='Structure of the interpolation decided statically: in splint/lininterp every interpolating path has established '
             'x >= xa[1] exactly and x - xa[n] <= tol <= 1e-7 (interval facts), *y is written on every path, the stored value is '
             'exactly the natural-cubic-spline interpolant (normal form), and the search loop is in the bracketing-bisection '
             'family slot by slot (initial bracket, continue condition, midpoint, update). Each of the 11 call sites passes the '
             'knots/values/second derivatives/count of ONE family derived from the parser, with identical indices, the 1-based '
             'idiom, the availability guard, the frozen argument/result transform and a tested result flag; the build-time '
             'printer emits all 35 family arrays under their own name with the family count; the Kissel low-energy extension is '
             'taken only between edge and first knot with the slope clamped to [-1,1] on every path. Thorough tier '
             '(translation_validation): all ~0.5 M generated knots equal the data files and are non-decreasing.',
        design_ref='DESIGN.md section 2, C02',
        note='Not decided: numerical value at interior points and the effect of the 1e-7 tolerance (runtime quantities). '
             'Kissel tables are empty in this tree; the rules are data-agnostic and the Kissel data facts are vacuous until '
             'the table is regenerated. Known finding F23: non-monotone knot in CS_Photo.dat for Z=96 (thorough tier).',
        technique='interval facts + exact normal form of the kernel; family derivation from the parser; generated-table validation',
    ),
    'C09': dict(
        category='other',
        text='The four Jump_from_* functions are enumerated path by path (~230 value paths); each is classified by the set of K/L '
             'edges its interval facts place below E and its returned normal form is compared exactly with the jump-ratio model '
             '(tau_k, 1/J_K, Coster-Kronig feeding, yield); every jump ratio and yield in the expression and every CK value that '
             'feeds a positive share is established non-zero on the path or the path is an error exit; all cases of open edges are '
             'served; below the sub-shell edge the call fails. Dispatch table = shell macro values, CS_FluorShell = CS_Photo x '
             'factor with both tested, CS_FluorLine line ranges = header macro ranges per shell, L-beta = sum over members of the '
             'jump function of the member\'s own shell times its rate.',
        design_ref='DESIGN.md section 2, C09',
        note='Assumes edge energies ordered L1 > L2 > L3 (encoded by the else-chain of the source; physical fact). Numeric values '
             'not evaluated.',
        technique='path-sensitive abstract interpretation with exact rational normal forms vs a parametric jump-ratio model',
    ),
    'C12': dict(
        category='other',
        text='Six of the eight clauses are decided by exact algebra on the returned normal forms: non-positive energy is an '
             'error; evenness and 2pi-periodicity (angles occur only under cos and even powers of sin); strictly positive '
             'value and non-vanishing divisors by the sign domain (cos in [-1,1] => 1-cos in [0,2] => denominators >= 1); '
             'unpolarised = azimuthal average of polarised for Thomson and Klein-Nishina; DCS_KN = Thomson-like form in the '
             'Compton-energy ratio; E -> 0 reduces KN to Thomson; ComptonEnergy closed form, end points and monotonicity.',
        design_ref='DESIGN.md section 2, C12',
        note='NOT decided (no sound static argument in reach): CS_KN equals the solid-angle integral of DCS_KN, and '
             'Klein-Nishina never exceeds Thomson. A coefficient error in CS_KN is therefore not detected. Rounding and '
             'low-energy cancellation are not evaluated.',
        technique='exact rational/trigonometric normal forms with substitution; interval sign domain',
    ),
    'C13': dict(
        category='other',
        text='Exact normal forms of the crystal functions: d-spacing = (V/abc)*sqrt(1/R) with R equal to the triclinic '
             'reciprocal-metric form, homogeneous of degree 2 in the Miller indices (=> inversion invariance, 1/n scaling) and '
             'invariant under cyclic relabelling of the axes; unit-cell volume formula; Bragg angle = asin((hc/E)/(2d)) of the '
             'same crystal/indices with the asin argument guarded to [-1,1] (error otherwise); Q = E sin(rel*theta_B)/hc; '
             'structure factor grows per atom by occupancy x (f_re + i f_im) x (cos + i sin)(2pi H.r) with the factors of the '
             'atom\'s own Z; flag table of f_re/f_im for all 12 valid combinations (additivity, f_im = 0 with the absorptive term '
             'off), invalid flags are errors; Atomic_Factors evaluated at (Z_atom, E, q(H), debye).',
        design_ref='DESIGN.md section 2, C13',
        note='Not decided: numeric agreement with FF_Rayl/Fi/Fii, Debye-factor semantics, (0,0,0) reduction value. The per-Z '
             'cache being written before it is read for every atom is the loop-carried fact used by C04.',
        technique='exact rational/trigonometric normal forms; per-iteration loop snapshots; symmetry oracle',
    ),
    'C14': dict(
        category='other',
        text='Induction over the operation history: the representation invariant of Crystal_Array (0 <= n_crystal <= n_alloc, '
             'entries [0, n_crystal) sorted by complete name and unique, each owning name and atoms and carrying the volume of '
             'its own cell) holds after Crystal_ArrayInit and is preserved by every abstract path of Crystal_ExtendArray, '
             'Crystal_AddCrystal and Crystal_ReadFile: appends are dominated by the capacity test or a successful in-place '
             'extension of the same array object (new vector of n_alloc + n_new entries, [0, n_crystal) moved); the appended '
             'slot is crystal[old n_crystal] and receives a tested deep copy; qsort over the current n_crystal with the '
             'comparator that agrees with the bsearch matcher follows the last append; the name is looked up over all entries '
             'first and a match is an error; the recomputed volume is that of the inserted entry / of every entry after the '
             'reader\'s sort; no path extends the built-in array; every failure exit has stored nothing into the collection or '
             'calls a helper whose summary truncates it back to its entry size; lookups return Crystal_MakeCopy (all fields, '
             'own name, own n_atom atoms); the list holds duplicates of the names of [0, n_crystal) and a NULL terminator; '
             'Crystal_ArrayFree releases every entry, the vector and the record.',
        design_ref='DESIGN.md section 2, C14',
        note='Decided per operation under the invariant as precondition; aliases kept by user code, the order produced by libc '
             'qsort/bsearch and the parsing of file bytes are outside. Fixed on this tree: F9, F10, F11a-c.',
        technique='typestate / representation-invariant preservation on abstract paths with memory cells and loop summaries',
    ),
    'C16': dict(
        category='other',
        text='Whole-library effect analysis (~200 functions, 1 200+ writes): every write is rooted in a local, fresh heap, an '
             'out-parameter or - only in the three documented crystal mutators - the built-in crystal array (syntactic roots '
             'plus alias-resolved store events of the abstract interpreter); pointers into the data tables are never handed to '
             'a callee that writes through that parameter; no static locals; XRayInit is empty; no process-global service '
             '(exit, chdir, environment, rand, strtok, stdout, freopen, ...) reachable from any of the 188 exported functions '
             '(call graph incl. constant function tables); stderr only from the frozen diagnostic set; setlocale only in the '
             'query-copy-set-restore bracket without an exit inside; numeric arrays handed out are filled or zero-allocated.',
        design_ref='DESIGN.md section 2, C16',
        note='Purity is decided as absence of shared mutable state and of process-global services (sufficient condition). '
             'Bit-identical results across processes additionally rely on determinism of libm and are not separately decided. '
             'Fixed on this tree: the locale restore bug of CompoundParser (F6).',
        technique='effect analysis: write-target classification, who-may-call over the call graph, typestate bracket for setlocale',
    ),
    'C17': dict(
        category='other',
        text='Race freedom by absence of sharing, decided over the transitive call graph of the 185 thread-safe entry points '
             '(everything except the three documented crystal mutators): no reachable function has a static local or writes a '
             'file-scope object; no mutator is reachable; no function that the glibc manual marks MT-Unsafe is reachable '
             '(frozen table with the manual\'s annotation; strerror allowed with reason); the error mechanism stores only through '
             'the caller\'s own slot.',
        design_ref='DESIGN.md section 2, C17',
        note='A sufficient static condition; schedules are not explored. Known finding F6b: CompoundParser -> setlocale is '
             'reachable from 26 thread-safe entry points (all compound functions).',
        technique='effect analysis + who-may-call over the call graph with a frozen MT-Unsafe table',
    ),
}

NOT_YET = {}


def main():
    props = [json.loads(l) for l in open(os.path.join(HERE, 'properties.jsonl'))]
    checks = []
    na = []
    for p in props:
        pid = p['id']
        if pid in CLAIMED:
            c = CLAIMED[pid]
            checks.append({
                'property_id': pid,
                'quick_cmd': './xv check %s --tier quick' % pid,
                'thorough_cmd': './xv check %s --tier thorough' % pid,
                'evidence_file': 'evidence/%s.json' % pid,
                'replay_cmd_template': './xv replay {path}',
                'engine': 'xv',
                'level_claimed': {'category': c['category'], 'text': c['text'], 'design_ref': c['design_ref']},
                'level_note': c['note'],
                'technique': c['technique'],
            })
        else:
            na.append({'property_id': pid,
                       'reason': NOT_YET.get(pid, 'static rule designed (DESIGN.md section 2) but not built yet; not claimed')})
    m = {
        'version': 1,
        'setup_cmd': 'make -C /verif',
        'hooks': {
            'guard': 'XRAYLIB_VERIF',
            'enable': 'no hook exists in /repo: the analysis reads unmodified sources; -DXRAYLIB_VERIF is passed to '
                      'every analysis compile so that an add-only annotation hook would be seen',
            'baseline_off_cmd': '/verif/tools/baseline_off.sh',
            'source_commits': [],
            'add_only': True,
        },
        'engines': [
            {'name': 'xv', 'path': 'xv', 'serves_properties': [c['property_id'] for c in checks],
             'kind_free_text': 'custom static analyser: clang-14 libTooling fact extractor (tools/xrl-facts.cc) + '
                               'Python rule modules (rules/cNN.py) over the resolved AST, macro table, initialisers, '
                               'data files and binding interface files'},
        ],
        'checks': checks,
        'not_applicable': na,
        'notes': 'Static analysis only: no check executes library code, tests, fuzzers or solvers over paths. '
                 'Exit 0 holds / 1 violation / 2 analysis broken or inconclusive. Known findings: known_findings.json.',
    }
    with open(os.path.join(HERE, 'MANIFEST.json'), 'w') as fh:
        json.dump(m, fh, indent=1)
    print('MANIFEST.json: %d claimed, %d not applicable' % (len(checks), len(na)))


if __name__ == '__main__':
    main()
