#!/usr/bin/env python3
"""False-alarm test with refactorings given as patches (directories holding patch.diff, e.g. produced by sub-agents, or
/verif/selftest/refactorings/<id>/): apply to /repo, run EVERY claimed check, require silence, undo.
  tools/benignrun.py [--checks C03,C04] <dir> [<dir> ...]      (no dir: all of selftest/refactorings)
Not a manifest command (it edits /repo)."""
import json, os, shutil, subprocess, sys, tempfile
from concurrent.futures import ThreadPoolExecutor
HERE = os.path.dirname(os.path.dirname(os.path.abspath(__file__)))


def sh(cmd):
    return subprocess.run(cmd, shell=True, stdout=subprocess.PIPE, stderr=subprocess.STDOUT, universal_newlines=True)


def main():
    args = sys.argv[1:]
    checks = [c['property_id'] for c in json.load(open(os.path.join(HERE, 'MANIFEST.json')))['checks']]
    if args and args[0] == '--checks':
        checks = args[1].split(',')
        args = args[2:]
    dirs = args or sorted(os.path.join(HERE, 'selftest', 'refactorings', d) for d in os.listdir(os.path.join(HERE, 'selftest', 'refactorings')))
    if sh('git -C /repo status --porcelain --untracked-files=no').stdout.strip():
        print('refusing to run: /repo has local modifications')
        return 2
    bad = 0
    for d in dirs:
        name = os.path.basename(d.rstrip('/'))
        pf = os.path.abspath(os.path.join(d, 'patch.diff'))
        if not os.path.exists(pf):
            continue
        r = sh('git -C /repo apply %s' % pf)
        if r.returncode != 0:
            print('%-12s patch does not apply: %s' % (name, r.stdout.strip()[-200:]))
            continue
        try:
            first = sh('cd %s && ./xv check %s --tier quick' % (HERE, checks[0]))
            res = {checks[0]: first}
            with ThreadPoolExecutor(max_workers=8) as ex:
                for c, rr in zip(checks[1:], ex.map(lambda c: sh('cd %s && ./xv check %s --tier quick' % (HERE, c)), checks[1:])):
                    res[c] = rr
            noisy = [(c, rr) for c, rr in res.items() if rr.returncode != 0]
            print('%-12s %s' % (name, 'silent on all %d checks' % len(checks) if not noisy else 'ALARM: ' + ', '.join('%s rc=%d' % (c, rr.returncode) for c, rr in noisy)))
            for c, rr in noisy:
                bad += 1
                for l in [l for l in rr.stdout.split('\n') if l.startswith(('src/', 'java/', 'cplusplus/', 'include/', 'ANALYSIS', 'INCONCLUSIVE', 'python/', 'fortran/', 'pascal/', 'idl/')) or 'Error' in l][:3]:
                    print('      ' + l[:300])
        finally:
            sh('git -C /repo checkout -- .')
    print('%d alarm(s)' % bad)
    return 1 if bad else 0


if __name__ == '__main__':
    bak = tempfile.mkdtemp(prefix='xv-evidence.', dir='/var/tmp')
    shutil.copytree(os.path.join(HERE, 'evidence'), bak + '/evidence')
    try:
        rc = main()
    finally:
        shutil.rmtree(os.path.join(HERE, 'evidence'))
        shutil.copytree(bak + '/evidence', os.path.join(HERE, 'evidence'))
        shutil.rmtree(bak)
    sys.exit(rc)
