// xrl-facts: a printer of what clang resolved for one translation unit.
//
// Usage: xrl-facts --root <dir> [--root <dir> ...] --out <file.json> <source> -- <compile flags>
//
// Emits one JSON object with: macros (object- and function-like, body tokens), records, enum
// constants, globals (with initialiser trees), function prototypes, and for every function
// definition located under one of the roots the *statement tree* of the body with resolved
// declarations, canonical types, clang-evaluated integer constants and the macro provenance of
// every expression whose first token comes out of a macro expansion.
//
// There is no judgement in this tool: rules live in /verif/rules.

#include "clang/AST/ASTConsumer.h"
#include "clang/AST/ASTContext.h"
#include "clang/AST/Attr.h"
#include "clang/AST/Decl.h"
#include "clang/AST/DeclCXX.h"
#include "clang/AST/DeclTemplate.h"
#include "clang/AST/Expr.h"
#include "clang/AST/ExprCXX.h"
#include "clang/AST/RecursiveASTVisitor.h"
#include "clang/AST/Stmt.h"
#include "clang/AST/StmtCXX.h"
#include "clang/Basic/SourceManager.h"
#include "clang/Frontend/CompilerInstance.h"
#include "clang/Frontend/FrontendAction.h"
#include "clang/Lex/Lexer.h"
#include "clang/Lex/MacroInfo.h"
#include "clang/Lex/PPCallbacks.h"
#include "clang/Lex/Preprocessor.h"
#include "clang/Tooling/CompilationDatabase.h"
#include "clang/Tooling/Tooling.h"
#include "llvm/ADT/SmallString.h"
#include "llvm/Support/JSON.h"
#include "llvm/Support/raw_ostream.h"

#include <map>
#include <set>
#include <string>
#include <vector>

using namespace clang;
namespace json = llvm::json;

static std::vector<std::string> Roots;
static std::string OutPath;

static bool underRoot(llvm::StringRef Path) {
  for (auto &R : Roots)
    if (Path.startswith(R))
      return true;
  return false;
}

namespace {

struct MacroRec {
  std::string name, file;
  unsigned line;
  bool functionLike;
  std::vector<std::string> params;
  std::vector<std::string> body;
};

class MacroCollector : public PPCallbacks {
public:
  MacroCollector(Preprocessor &PP, std::vector<MacroRec> &Out) : PP(PP), Out(Out) {}
  void MacroDefined(const Token &Name, const MacroDirective *MD) override {
    const MacroInfo *MI = MD->getMacroInfo();
    SourceManager &SM = PP.getSourceManager();
    SourceLocation L = MI->getDefinitionLoc();
    if (!L.isValid() || !L.isFileID())
      return;
    PresumedLoc PL = SM.getPresumedLoc(L);
    if (!PL.isValid())
      return;
    llvm::SmallString<256> P(PL.getFilename());
    SM.getFileManager().makeAbsolutePath(P);
    llvm::sys::path::remove_dots(P, true);
    if (!underRoot(P))
      return;
    MacroRec R;
    R.name = Name.getIdentifierInfo()->getName().str();
    R.file = std::string(P.str());
    R.line = PL.getLine();
    R.functionLike = MI->isFunctionLike();
    for (const IdentifierInfo *II : MI->params())
      R.params.push_back(II->getName().str());
    for (const Token &T : MI->tokens())
      R.body.push_back(PP.getSpelling(T));
    Out.push_back(std::move(R));
  }

private:
  Preprocessor &PP;
  std::vector<MacroRec> &Out;
};

class Emitter {
public:
  Emitter(ASTContext &Ctx, json::OStream &J) : Ctx(Ctx), SM(Ctx.getSourceManager()), J(J) {}

  std::string absFile(SourceLocation L) {
    L = SM.getExpansionLoc(L);
    PresumedLoc PL = SM.getPresumedLoc(L);
    if (!PL.isValid())
      return "";
    llvm::SmallString<256> P(PL.getFilename());
    SM.getFileManager().makeAbsolutePath(P);
    llvm::sys::path::remove_dots(P, true);
    return std::string(P.str());
  }
  unsigned lineOf(SourceLocation L) { return SM.getExpansionLineNumber(L); }
  unsigned colOf(SourceLocation L) { return SM.getExpansionColumnNumber(L); }

  bool inProject(SourceLocation L) {
    if (!L.isValid())
      return false;
    return underRoot(absFile(L));
  }

  std::string typeStr(QualType T) {
    if (T.isNull())
      return "";
    PrintingPolicy PP(Ctx.getLangOpts());
    PP.SuppressTagKeyword = false;
    return T.getCanonicalType().getAsString(PP);
  }
  std::string typeStrSugar(QualType T) {
    if (T.isNull())
      return "";
    PrintingPolicy PP(Ctx.getLangOpts());
    return T.getAsString(PP);
  }

  void macroChain(SourceLocation L) {
    if (!L.isMacroID())
      return;
    std::vector<std::string> Names;
    int guard = 0;
    while (L.isMacroID() && guard++ < 64) {
      std::string N = Lexer::getImmediateMacroName(L, SM, Ctx.getLangOpts()).str();
      if (!N.empty() && (Names.empty() || Names.back() != N))
        Names.push_back(N);
      L = SM.getImmediateMacroCallerLoc(L);
    }
    J.attributeArray("m", [&] {
      for (auto &N : Names)
        J.value(N);
    });
  }

  void loc(SourceLocation L) {
    J.attribute("ln", (int64_t)lineOf(L));
    J.attribute("col", (int64_t)colOf(L));
  }

  void dims(QualType T) {
    std::vector<int64_t> D;
    QualType Q = T;
    while (const ArrayType *AT = Ctx.getAsArrayType(Q)) {
      if (auto *CAT = dyn_cast<ConstantArrayType>(AT))
        D.push_back(CAT->getSize().getSExtValue());
      else
        D.push_back(-1);
      Q = AT->getElementType();
    }
    if (!D.empty())
      J.attributeArray("dims", [&] {
        for (auto X : D)
          J.value(X);
      });
  }

  const char *declClass(const ValueDecl *D) {
    if (isa<ParmVarDecl>(D))
      return "param";
    if (auto *V = dyn_cast<VarDecl>(D)) {
      if (V->isStaticLocal())
        return "slocal";
      if (V->isLocalVarDecl())
        return "local";
      return "global";
    }
    if (isa<FunctionDecl>(D))
      return "func";
    if (isa<EnumConstantDecl>(D))
      return "enumc";
    if (isa<FieldDecl>(D))
      return "field";
    return "other";
  }

  void emitChildren(const Stmt *S) {
    if (S->children().empty())
      return;
    J.attributeArray("c", [&] {
      for (const Stmt *C : S->children()) {
        if (C)
          emitStmt(C);
        else
          J.value(nullptr);
      }
    });
  }

  void emitVarDecl(const VarDecl *V) {
    J.object([&] {
      J.attribute("k", "var");
      J.attribute("name", V->getNameAsString());
      J.attribute("id", (int64_t)(uintptr_t)V->getCanonicalDecl());
      J.attribute("T", typeStr(V->getType()));
      J.attribute("cls", declClass(V));
      dims(V->getType());
      loc(V->getLocation());
      if (V->hasInit()) {
        J.attributeBegin("init");
        emitStmt(V->getInit());
        J.attributeEnd();
      }
    });
  }

  // Skip wrappers that carry no meaning for the rules.
  const Stmt *strip(const Stmt *S) {
    while (S) {
      if (auto *P = dyn_cast<ParenExpr>(S))
        S = P->getSubExpr();
      else if (auto *I = dyn_cast<ImplicitCastExpr>(S))
        S = I->getSubExpr();
      else if (auto *C = dyn_cast<ConstantExpr>(S))
        S = C->getSubExpr();
      else if (auto *E = dyn_cast<ExprWithCleanups>(S))
        S = E->getSubExpr();
      else if (auto *M = dyn_cast<MaterializeTemporaryExpr>(S))
        S = M->getSubExpr();
      else if (auto *B = dyn_cast<CXXBindTemporaryExpr>(S))
        S = B->getSubExpr();
      else
        break;
    }
    return S;
  }

  void emitStmt(const Stmt *S0) {
    const Stmt *S = strip(S0);
    if (!S) {
      J.value(nullptr);
      return;
    }
    J.object([&] {
      J.attribute("k", S->getStmtClassName());
      loc(S->getBeginLoc());
      if (auto *E0 = dyn_cast<Expr>(S0)) {
        // type of the *outer* expression (after implicit conversions) and of the stripped one
        J.attribute("T", typeStr(E0->getType()));
      }
      if (auto *E = dyn_cast<Expr>(S)) {
        if (E != S0)
          J.attribute("Ti", typeStr(E->getType()));
        macroChain(E->getBeginLoc());
        // "mw": the whole expression (first to last token) comes out of one top-level macro expansion
        if (E->getBeginLoc().isMacroID() && E->getEndLoc().isMacroID() &&
            SM.getExpansionLoc(E->getBeginLoc()) == SM.getExpansionLoc(E->getEndLoc()))
          J.attribute("mw", 1);
        if (!E->isValueDependent() && !E->isTypeDependent() && !E->getType().isNull() &&
            E->getType()->isIntegralOrEnumerationType()) {
          Expr::EvalResult R;
          if (E->EvaluateAsInt(R, Ctx, Expr::SE_NoSideEffects))
            J.attribute("v", R.Val.getInt().getExtValue());
        }
      }
      if (auto *DR = dyn_cast<DeclRefExpr>(S)) {
        const ValueDecl *D = DR->getDecl();
        J.attribute("name", D->getNameAsString());
        J.attribute("cls", declClass(D));
        J.attribute("id", (int64_t)(uintptr_t)D->getCanonicalDecl());
        J.attribute("dT", typeStr(D->getType()));
        dims(D->getType());
        if (auto *V = dyn_cast<VarDecl>(D)) {
          if (V->getType().isConstQualified())
            J.attribute("const", true);
        }
        if (auto *FD = dyn_cast<FunctionDecl>(D))
          J.attribute("qname", FD->getQualifiedNameAsString());
      } else if (auto *IL = dyn_cast<IntegerLiteral>(S)) {
        J.attribute("val", IL->getValue().getSExtValue());
      } else if (auto *FL = dyn_cast<FloatingLiteral>(S)) {
        llvm::SmallString<32> Str;
        FL->getValue().toString(Str, 0, 0);
        J.attribute("val", Str.str());
        // the spelling as written (exact decimal)
        SourceLocation SL = SM.getSpellingLoc(FL->getBeginLoc());
        bool Inv = false;
        llvm::StringRef Sp = Lexer::getSpelling(SL, SpBuf, SM, Ctx.getLangOpts(), &Inv);
        if (!Inv)
          J.attribute("sp", Sp);
      } else if (auto *SL = dyn_cast<clang::StringLiteral>(S)) {
        if (SL->getCharByteWidth() == 1)
          J.attribute("val", SL->getString());
      } else if (auto *CL = dyn_cast<CharacterLiteral>(S)) {
        J.attribute("val", (int64_t)CL->getValue());
      } else if (auto *BO = dyn_cast<BinaryOperator>(S)) {
        J.attribute("op", BO->getOpcodeStr());
      } else if (auto *UO = dyn_cast<UnaryOperator>(S)) {
        J.attribute("op", UnaryOperator::getOpcodeStr(UO->getOpcode()));
        if (UO->isPostfix())
          J.attribute("post", true);
      } else if (auto *ME = dyn_cast<MemberExpr>(S)) {
        J.attribute("field", ME->getMemberDecl()->getNameAsString());
        J.attribute("arrow", ME->isArrow());
        J.attribute("fcls", declClass(ME->getMemberDecl()));
        if (auto *FD = dyn_cast<FieldDecl>(ME->getMemberDecl()))
          J.attribute("fidx", (int64_t)FD->getFieldIndex());
        if (auto *RD = dyn_cast<RecordDecl>(ME->getMemberDecl()->getDeclContext()))
          J.attribute("rec", RD->getNameAsString());
      } else if (auto *CE = dyn_cast<CallExpr>(S)) {
        if (const FunctionDecl *FD = CE->getDirectCallee()) {
          J.attribute("callee", FD->getNameAsString());
          J.attribute("qcallee", FD->getQualifiedNameAsString());
          J.attribute("callee_proj", inProject(FD->getLocation()));
          J.attribute("variadic", FD->isVariadic());
          if (FD->getBuiltinID())
            J.attribute("builtin", true);
        }
        if (!CE->getDirectCallee() || isa<CXXMemberCallExpr>(CE)) {
          J.attributeBegin("fn");
          emitStmt(CE->getCallee());
          J.attributeEnd();
        }
        J.attributeArray("args", [&] {
          for (const Expr *A : CE->arguments())
            emitStmt(A);
        });
        if (isa<CXXMemberCallExpr>(CE))
          J.attribute("member_call", true);
        return; // children already emitted
      } else if (auto *CC = dyn_cast<CXXConstructExpr>(S)) {
        J.attribute("ctor", CC->getConstructor()->getQualifiedNameAsString());
      } else if (auto *CA = dyn_cast<ExplicitCastExpr>(S)) {
        J.attribute("toT", typeStr(CA->getTypeAsWritten()));
        J.attribute("ck", CA->getCastKindName());
      } else if (auto *UE = dyn_cast<UnaryExprOrTypeTraitExpr>(S)) {
        J.attribute("trait", (int64_t)UE->getKind());
        if (UE->isArgumentType()) {
          J.attribute("argT", typeStr(UE->getArgumentType()));
          J.attribute("argTs", typeStrSugar(UE->getArgumentType()));
        } else {
          J.attribute("argT", typeStr(UE->getArgumentExpr()->getType()));
        }
      } else if (auto *DS = dyn_cast<DeclStmt>(S)) {
        J.attributeArray("decls", [&] {
          for (const Decl *D : DS->decls()) {
            if (auto *V = dyn_cast<VarDecl>(D))
              emitVarDecl(V);
            else
              J.object([&] {
                J.attribute("k", "decl");
                J.attribute("cls", D->getDeclKindName());
              });
          }
        });
        return;
      } else if (auto *IS = dyn_cast<IfStmt>(S)) {
        J.attributeBegin("cond");
        emitStmt(IS->getCond());
        J.attributeEnd();
        J.attributeBegin("then");
        emitStmt(IS->getThen());
        J.attributeEnd();
        if (IS->getElse()) {
          J.attributeBegin("else");
          emitStmt(IS->getElse());
          J.attributeEnd();
        }
        if (IS->getInit() || IS->getConditionVariable())
          J.attribute("has_init", true);
        return;
      } else if (auto *FS = dyn_cast<ForStmt>(S)) {
        J.attributeBegin("init");
        emitStmt(FS->getInit());
        J.attributeEnd();
        J.attributeBegin("cond");
        emitStmt(FS->getCond());
        J.attributeEnd();
        J.attributeBegin("inc");
        emitStmt(FS->getInc());
        J.attributeEnd();
        J.attributeBegin("body");
        emitStmt(FS->getBody());
        J.attributeEnd();
        return;
      } else if (auto *WS = dyn_cast<WhileStmt>(S)) {
        J.attributeBegin("cond");
        emitStmt(WS->getCond());
        J.attributeEnd();
        J.attributeBegin("body");
        emitStmt(WS->getBody());
        J.attributeEnd();
        return;
      } else if (auto *DS2 = dyn_cast<DoStmt>(S)) {
        J.attributeBegin("cond");
        emitStmt(DS2->getCond());
        J.attributeEnd();
        J.attributeBegin("body");
        emitStmt(DS2->getBody());
        J.attributeEnd();
        return;
      } else if (auto *SS = dyn_cast<SwitchStmt>(S)) {
        J.attributeBegin("cond");
        emitStmt(SS->getCond());
        J.attributeEnd();
        J.attributeBegin("body");
        emitStmt(SS->getBody());
        J.attributeEnd();
        return;
      } else if (auto *CS = dyn_cast<CaseStmt>(S)) {
        J.attributeBegin("lhs");
        emitStmt(CS->getLHS());
        J.attributeEnd();
        if (CS->getRHS()) {
          J.attributeBegin("rhs");
          emitStmt(CS->getRHS());
          J.attributeEnd();
        }
        J.attributeBegin("sub");
        emitStmt(CS->getSubStmt());
        J.attributeEnd();
        return;
      } else if (auto *DF = dyn_cast<DefaultStmt>(S)) {
        J.attributeBegin("sub");
        emitStmt(DF->getSubStmt());
        J.attributeEnd();
        return;
      } else if (auto *ILE = dyn_cast<InitListExpr>(S)) {
        const InitListExpr *Sem = ILE->isSemanticForm() ? ILE : (ILE->getSemanticForm() ? ILE->getSemanticForm() : ILE);
        J.attributeArray("c", [&] {
          for (const Expr *I : Sem->inits())
            emitStmt(I);
        });
        if (Sem->hasArrayFiller())
          J.attribute("filler", true);
        return;
      } else if (auto *DIE = dyn_cast<DesignatedInitExpr>(S)) {
        (void)DIE;
      } else if (auto *NE = dyn_cast<CXXNewExpr>(S)) {
        J.attribute("allocT", typeStr(NE->getAllocatedType()));
        J.attribute("array", NE->isArray());
      } else if (auto *DE = dyn_cast<CXXDeleteExpr>(S)) {
        J.attribute("array", DE->isArrayForm());
      } else if (auto *LE = dyn_cast<LambdaExpr>(S)) {
        J.attributeBegin("body");
        emitStmt(LE->getBody());
        J.attributeEnd();
      } else if (auto *DM = dyn_cast<CXXDependentScopeMemberExpr>(S)) {
        J.attribute("field", DM->getMember().getAsString());
      } else if (auto *UL = dyn_cast<UnresolvedLookupExpr>(S)) {
        J.attribute("name", UL->getName().getAsString());
      } else if (auto *TR = dyn_cast<CXXTryStmt>(S)) {
        (void)TR;
      } else if (auto *CT = dyn_cast<CXXCatchStmt>(S)) {
        if (CT->getExceptionDecl())
          J.attribute("excT", typeStr(CT->getCaughtType()));
      }
      emitChildren(S);
    });
  }

  void emitFunctionHeader(const FunctionDecl *FD) {
    J.attribute("name", FD->getNameAsString());
    J.attribute("qname", FD->getQualifiedNameAsString());
    J.attribute("file", absFile(FD->getLocation()));
    loc(FD->getLocation());
    J.attribute("ret", typeStr(FD->getReturnType()));
    J.attribute("rets", typeStrSugar(FD->getReturnType()));
    J.attribute("static", FD->getStorageClass() == SC_Static);
    J.attribute("extern_linkage", FD->isExternallyVisible());
    J.attribute("variadic", FD->isVariadic());
    J.attribute("inline", FD->isInlined());
    const char *Vis = "none";
    if (auto *VA = FD->getAttr<VisibilityAttr>()) {
      switch (VA->getVisibility()) {
      case VisibilityAttr::Default:
        Vis = "default";
        break;
      case VisibilityAttr::Hidden:
        Vis = "hidden";
        break;
      case VisibilityAttr::Protected:
        Vis = "protected";
        break;
      }
    }
    J.attribute("vis", Vis);
    if (FD->hasAttr<DeprecatedAttr>())
      J.attribute("deprecated", true);
    if (auto *MD = dyn_cast<CXXMethodDecl>(FD)) {
      J.attribute("method_of", MD->getParent()->getQualifiedNameAsString());
      J.attribute("is_static_method", MD->isStatic());
      J.attribute("is_const_method", MD->isConst());
      if (isa<CXXConstructorDecl>(MD))
        J.attribute("special", "ctor");
      else if (isa<CXXDestructorDecl>(MD))
        J.attribute("special", "dtor");
      if (MD->isDeleted())
        J.attribute("deleted", true);
      if (MD->isDefaulted())
        J.attribute("defaulted", true);
    }
    J.attributeArray("params", [&] {
      for (const ParmVarDecl *P : FD->parameters())
        J.object([&] {
          J.attribute("name", P->getNameAsString());
          J.attribute("T", typeStr(P->getType()));
          J.attribute("Ts", typeStrSugar(P->getOriginalType()));
          J.attribute("id", (int64_t)(uintptr_t)P->getCanonicalDecl());
        });
    });
  }

  void emitFunctionDef(const FunctionDecl *FD, const char *Origin) {
    J.object([&] {
      emitFunctionHeader(FD);
      J.attribute("origin", Origin);
      if (FD->getTemplateSpecializationInfo()) {
        J.attributeArray("targs", [&] {
          if (auto *TA = FD->getTemplateSpecializationArgs())
            for (const TemplateArgument &A : TA->asArray()) {
              std::string S;
              llvm::raw_string_ostream OS(S);
              A.print(PrintingPolicy(Ctx.getLangOpts()), OS, true);
              J.value(OS.str());
            }
        });
      }
      if (auto *CD = dyn_cast<CXXConstructorDecl>(FD)) {
        J.attributeArray("inits", [&] {
          for (const CXXCtorInitializer *I : CD->inits())
            J.object([&] {
              if (I->isAnyMemberInitializer())
                J.attribute("member", I->getAnyMember()->getNameAsString());
              else if (I->isBaseInitializer())
                J.attribute("base", typeStr(QualType(I->getBaseClass(), 0)));
              J.attribute("written", I->isWritten());
              J.attributeBegin("init");
              emitStmt(I->getInit());
              J.attributeEnd();
            });
        });
      }
      J.attributeBegin("body");
      emitStmt(FD->getBody());
      J.attributeEnd();
    });
  }

  llvm::SmallString<64> SpBuf;
  ASTContext &Ctx;
  SourceManager &SM;
  json::OStream &J;
};

class Collector : public RecursiveASTVisitor<Collector> {
public:
  Collector(Emitter &E) : E(E) {}
  bool shouldVisitTemplateInstantiations() const { return true; }
  bool shouldVisitImplicitCode() const { return false; }

  bool VisitFunctionDecl(FunctionDecl *FD) {
    if (!E.inProject(FD->getLocation()))
      return true;
    if (FD->isDependentContext()) {
      if (FD->doesThisDeclarationHaveABody())
        TemplDefs.push_back(FD);
      return true;
    }
    if (FD->doesThisDeclarationHaveABody())
      Defs.push_back(FD);
    else
      Protos.push_back(FD);
    return true;
  }
  bool VisitVarDecl(VarDecl *V) {
    if (!E.inProject(V->getLocation()))
      return true;
    if (V->isFileVarDecl() && !isa<ParmVarDecl>(V) && !V->isStaticDataMember())
      Globals.push_back(V);
    else if (V->isStaticDataMember())
      Globals.push_back(V);
    return true;
  }
  bool VisitRecordDecl(RecordDecl *R) {
    if (!E.inProject(R->getLocation()))
      return true;
    if (R->isCompleteDefinition() && !R->isDependentContext())
      Records.push_back(R);
    return true;
  }
  bool VisitEnumConstantDecl(EnumConstantDecl *D) {
    if (E.inProject(D->getLocation()))
      Enums.push_back(D);
    return true;
  }
  bool VisitTypedefNameDecl(TypedefNameDecl *D) {
    if (E.inProject(D->getLocation()))
      Typedefs.push_back(D);
    return true;
  }

  std::vector<FunctionDecl *> Defs, Protos, TemplDefs;
  std::vector<VarDecl *> Globals;
  std::vector<RecordDecl *> Records;
  std::vector<EnumConstantDecl *> Enums;
  std::vector<TypedefNameDecl *> Typedefs;
  Emitter &E;
};

class Consumer : public ASTConsumer {
public:
  Consumer(CompilerInstance &CI, std::vector<MacroRec> &Macros, std::string Main)
      : CI(CI), Macros(Macros), Main(std::move(Main)) {}

  void HandleTranslationUnit(ASTContext &Ctx) override {
    std::error_code EC;
    llvm::raw_fd_ostream OS(OutPath, EC);
    if (EC) {
      llvm::errs() << "xrl-facts: cannot open " << OutPath << ": " << EC.message() << "\n";
      return;
    }
    json::OStream J(OS);
    Emitter E(Ctx, J);
    Collector C(E);
    C.TraverseDecl(Ctx.getTranslationUnitDecl());
    unsigned NErr = CI.getDiagnostics().getClient()->getNumErrors();
    J.object([&] {
      J.attribute("unit", Main);
      J.attribute("errors", (int64_t)NErr);
      J.attribute("cxx", Ctx.getLangOpts().CPlusPlus);
      J.attributeArray("macros", [&] {
        for (auto &M : Macros)
          J.object([&] {
            J.attribute("name", M.name);
            J.attribute("file", M.file);
            J.attribute("ln", (int64_t)M.line);
            J.attribute("fl", M.functionLike);
            if (M.functionLike)
              J.attributeArray("params", [&] {
                for (auto &P : M.params)
                  J.value(P);
              });
            J.attributeArray("body", [&] {
              for (auto &T : M.body)
                J.value(T);
            });
          });
      });
      J.attributeArray("records", [&] {
        for (RecordDecl *R : C.Records)
          J.object([&] {
            {
              std::string RN = R->getNameAsString();
              if (RN.empty())
                if (auto *TD = R->getTypedefNameForAnonDecl())
                  RN = TD->getNameAsString();
              J.attribute("name", RN);
            }
            if (auto *CR = dyn_cast<CXXRecordDecl>(R))
              J.attribute("qname", CR->getQualifiedNameAsString());
            J.attribute("file", E.absFile(R->getLocation()));
            E.loc(R->getLocation());
            J.attribute("union", R->isUnion());
            J.attributeArray("fields", [&] {
              for (FieldDecl *F : R->fields())
                J.object([&] {
                  J.attribute("name", F->getNameAsString());
                  J.attribute("T", E.typeStr(F->getType()));
                  J.attribute("ptr", F->getType()->isPointerType());
                  J.attribute("const", F->getType().isConstQualified());
                  E.dims(F->getType());
                });
            });
          });
      });
      J.attributeArray("typedefs", [&] {
        for (TypedefNameDecl *T : C.Typedefs)
          J.object([&] {
            J.attribute("name", T->getNameAsString());
            J.attribute("T", E.typeStr(T->getUnderlyingType()));
          });
      });
      J.attributeArray("enums", [&] {
        for (EnumConstantDecl *D : C.Enums)
          J.object([&] {
            J.attribute("name", D->getNameAsString());
            J.attribute("v", D->getInitVal().getExtValue());
            J.attribute("file", E.absFile(D->getLocation()));
            E.loc(D->getLocation());
            if (auto *ED = dyn_cast<EnumDecl>(D->getDeclContext()))
              J.attribute("enum", ED->getNameAsString());
          });
      });
      J.attributeArray("globals", [&] {
        for (VarDecl *V : C.Globals)
          J.object([&] {
            J.attribute("name", V->getNameAsString());
            J.attribute("file", E.absFile(V->getLocation()));
            E.loc(V->getLocation());
            J.attribute("T", E.typeStr(V->getType()));
            E.dims(V->getType());
            J.attribute("const", V->getType().isConstQualified());
            J.attribute("static", V->getStorageClass() == SC_Static);
            J.attribute("extern_decl", V->hasExternalStorage() && !V->hasInit());
            J.attribute("is_def", V->isThisDeclarationADefinition() != VarDecl::DeclarationOnly);
            if (V->hasInit() && V->isThisDeclarationADefinition()) {
              J.attributeBegin("init");
              E.emitStmt(V->getInit());
              J.attributeEnd();
            }
          });
      });
      J.attributeArray("protos", [&] {
        for (FunctionDecl *FD : C.Protos)
          J.object([&] { E.emitFunctionHeader(FD); });
      });
      J.attributeArray("functions", [&] {
        for (FunctionDecl *FD : C.Defs)
          E.emitFunctionDef(FD, FD->isTemplateInstantiation() ? "instantiation" : "source");
        for (FunctionDecl *FD : C.TemplDefs)
          E.emitFunctionDef(FD, "template");
      });
    });
    OS << "\n";
  }

private:
  CompilerInstance &CI;
  std::vector<MacroRec> &Macros;
  std::string Main;
};

class Action : public ASTFrontendAction {
public:
  std::unique_ptr<ASTConsumer> CreateASTConsumer(CompilerInstance &CI, llvm::StringRef InFile) override {
    CI.getPreprocessor().addPPCallbacks(std::make_unique<MacroCollector>(CI.getPreprocessor(), Macros));
    return std::make_unique<Consumer>(CI, Macros, InFile.str());
  }

private:
  std::vector<MacroRec> Macros;
};

class Factory : public tooling::FrontendActionFactory {
public:
  std::unique_ptr<FrontendAction> create() override { return std::make_unique<Action>(); }
};

} // namespace

int main(int argc, const char **argv) {
  std::vector<std::string> Sources;
  std::vector<std::string> Flags;
  int i = 1;
  for (; i < argc; ++i) {
    std::string A = argv[i];
    if (A == "--")
      break;
    if (A == "--root" && i + 1 < argc) {
      Roots.push_back(argv[++i]);
    } else if (A == "--out" && i + 1 < argc) {
      OutPath = argv[++i];
    } else
      Sources.push_back(A);
  }
  for (++i; i < argc; ++i)
    Flags.push_back(argv[i]);
  if (Sources.size() != 1 || OutPath.empty() || Roots.empty()) {
    llvm::errs() << "usage: xrl-facts --root DIR --out FILE source -- flags\n";
    return 2;
  }
  tooling::FixedCompilationDatabase DB(".", Flags);
  tooling::ClangTool Tool(DB, Sources);
  Factory F;
  int rc = Tool.run(&F);
  return rc ? 3 : 0;
}
