#!/usr/bin/env python3
"""Prepares a round of behaviour-preserving refactorings produced by fresh sub-agents: mkbenignprompts.py <round-dir>"""
import json, os, subprocess, sys
HERE = os.path.dirname(os.path.dirname(os.path.abspath(__file__)))
root = sys.argv[1]
os.makedirs(root, exist_ok=True)
T = open(os.path.join(HERE, 'tools', 'benignprompt.txt')).read()
for line in open(os.path.join(HERE, 'properties.jsonl')):
    p = json.loads(line)
    pid = p['id']
    wt = os.path.join(root, 'wt-' + pid)
    json.dump(p, open(os.path.join(root, pid + '.property.json'), 'w'), indent=1)
    if not os.path.isdir(wt):
        subprocess.run(['git', '-C', '/repo', 'worktree', 'add', '--detach', wt, 'HEAD'], check=True, stdout=subprocess.DEVNULL, stderr=subprocess.DEVNULL)
    open(os.path.join(root, 'prompt-%s.txt' % pid), 'w').write(T.replace('@WT@', wt).replace('@PID@', pid).replace('@ROOT@', root))
print('prepared', root)
